"""Line protocol between the Python harness and the Lean driver."""
import os
import struct
import subprocess
import numpy as np

VERIF = os.path.dirname(os.path.dirname(os.path.abspath(__file__)))
LEAN_DIR = os.path.join(VERIF, "lean")


def fbits(x):
    return str(struct.unpack("<Q", struct.pack("<d", float(x)))[0])


def bits2f(s):
    return struct.unpack("<d", struct.pack("<Q", int(s)))[0]


def flist(xs):
    xs = np.asarray(xs, dtype=float).ravel()
    return [str(len(xs))] + [fbits(x) for x in xs]


def ilist(xs):
    xs = [int(x) for x in np.asarray(xs).ravel()]
    return [str(len(xs))] + [str(x) for x in xs]


def fmat(m):
    m = np.asarray(m, dtype=float)
    assert m.ndim == 2
    return [str(m.shape[0]), str(m.shape[1])] + [fbits(x) for x in m.ravel()]


def imat(m):
    m = np.asarray(m)
    assert m.ndim == 2
    return [str(m.shape[0]), str(m.shape[1])] + [str(int(x)) for x in m.ravel()]


def events(log):
    out = ["DRAWS", str(len(log))]
    for e in log:
        out += ["E", e.name, str(len(e.args))] + [str(int(a)) for a in e.args]
        if e.name == "random":
            out += [str(len(e.vals))] + [fbits(v) for v in e.vals]
        else:
            out += [str(len(e.vals))] + [str(int(v)) for v in e.vals]
    return out


class Tokens:
    def __init__(self, toks):
        self.t, self.i = toks, 0

    def tok(self):
        v = self.t[self.i]
        self.i += 1
        return v

    def nat(self):
        return int(self.tok())

    def flt(self):
        return bits2f(self.tok())

    def ilist(self):
        n = self.nat()
        return [int(self.tok()) for _ in range(n)]

    def flist(self):
        n = self.nat()
        return np.array([self.flt() for _ in range(n)], dtype=float)

    def fbitlist(self):
        n = self.nat()
        return [int(self.tok()) for _ in range(n)]

    def fmat(self):
        r, c = self.nat(), self.nat()
        return np.array([self.flt() for _ in range(r * c)], dtype=float).reshape(r, c)

    def imat(self):
        r, c = self.nat(), self.nat()
        return np.array([int(self.tok()) for _ in range(r * c)], dtype=int).reshape(r, c)

    def rest(self):
        return " ".join(self.t[self.i:])


def driver_cmd():
    exe = os.path.join(LEAN_DIR, ".lake", "build", "bin", "driver")
    if os.path.exists(exe):
        return [exe]
    return ["lake", "env", "lean", "--run", "Driver.lean"]


def run_driver(lines, timeout=1800):
    """Send record lines to the Lean driver, return its answer lines (same order)."""
    if not lines:
        return []
    data = ("\n".join(lines) + "\n").encode()
    p = subprocess.run(driver_cmd(), input=data, stdout=subprocess.PIPE, stderr=subprocess.PIPE,
                       cwd=LEAN_DIR, timeout=timeout)
    if p.returncode != 0:
        raise RuntimeError("lean driver failed (%d): %s" % (p.returncode, p.stderr.decode()[-2000:]))
    out = p.stdout.decode().splitlines()
    if len(out) != len(lines):
        raise RuntimeError("lean driver returned %d lines for %d records" % (len(out), len(lines)))
    return out
