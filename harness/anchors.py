"""Source drift table: a hash of the normalised AST of every anchored function / class, stored when the
model was last aligned with it (harness/anchors.json). A differing hash never fails a run; it multiplies
the sample budget of the components that model that code - more search exactly where the code changed."""
import ast
import hashlib
import json
import os

REPO = os.environ.get("PYMOODE_REPO", "/repo")
HERE = os.path.dirname(os.path.abspath(__file__))

# component -> anchored (file, qualified names); '*' = every top-level definition of the file
ANCHORS = {
    "repair": [("pymoode/operators/dem.py", ["bounce_back", "midway", "to_bounds", "rand_init", "REPAIRS"])],
    "dem": [("pymoode/operators/dem.py", ["DifferentialMutation", "DEM"]), ("pymoode/operators/deop.py", ["*"])],
    "dex": [("pymoode/operators/dex.py", ["*"])],
    "mask": [("pymoode/operators/dex.py", ["row_at_least_once_true", "cross_binomial", "cross_exp"])],
    "des": [("pymoode/operators/des.py", ["*"])],
    "variant": [("pymoode/operators/variant.py", ["*"])],
    "repl": [("pymoode/survival/replacement.py", ["BaseReplacement", "ImprovementReplacement"]), ("pymoode/survival/fitness.py", ["FitnessSurvival"])],
    "surv": [("pymoode/survival/rank_and_crowding/rnc.py", ["*"])],
    "trunc": [("pymoode/survival/rank_and_crowding/rnc.py", ["RankAndCrowding"])],
    "crowd3": [("pymoode/survival/rank_and_crowding/metrics.py", ["*"]), ("pymoode/misc/mnn.py", ["*"]), ("pymoode/misc/pruning_cd.py", ["*"]),
               ("pymoode/cython/mnn.pyx", ["#text"]), ("pymoode/cython/pruning_cd.pyx", ["#text"]), ("pymoode/cython/utils.pxd", ["#text"])],
    "spnn": [("pymoode/cython/spacing_neighbors.pyx", ["#text"])],
    "spacing": [("pymoode/performance/_spacing.py", ["*"])],
    "gen": [("pymoode/algorithms/base/differential.py", ["*"]), ("pymoode/algorithms/base/evolutionary.py", ["*"]), ("pymoode/algorithms/base/genetic.py", ["*"]),
            ("pymoode/algorithms/de.py", ["*"]), ("pymoode/algorithms/gde3.py", ["*"]), ("pymoode/algorithms/nsde.py", ["*"]), ("pymoode/algorithms/nsder.py", ["*"])],
}
ANCHORS["repro"] = ANCHORS["gen"]
ANCHORS["resume"] = ANCHORS["gen"]
ANCHORS["stats"] = ANCHORS["dex"] + ANCHORS["repair"] + ANCHORS["des"]


def _strip_doc(node):
    for n in ast.walk(node):
        if isinstance(n, (ast.FunctionDef, ast.ClassDef, ast.Module, ast.AsyncFunctionDef)) and n.body \
                and isinstance(n.body[0], ast.Expr) and isinstance(getattr(n.body[0], "value", None), ast.Constant) \
                and isinstance(n.body[0].value.value, str):
            n.body = n.body[1:] or [ast.Pass()]
    return node


def file_hashes(path, names):
    full = os.path.join(REPO, path)
    try:
        src = open(full).read()
    except OSError:
        return {"#missing": "missing"}
    if names == ["#text"]:
        txt = "\n".join(l.split("#")[0].rstrip() for l in src.splitlines() if l.split("#")[0].strip())
        return {"#text": hashlib.sha1(txt.encode()).hexdigest()[:16]}
    try:
        tree = _strip_doc(ast.parse(src))
    except SyntaxError:
        return {"#syntax": "error"}
    out = {}
    for node in tree.body:
        nm = getattr(node, "name", None)
        if nm is None and isinstance(node, ast.Assign):
            nm = ",".join(getattr(t, "id", "?") for t in node.targets)
        if nm is None:
            continue
        if names == ["*"] or nm in names:
            out[nm] = hashlib.sha1(ast.dump(node, include_attributes=False).encode()).hexdigest()[:16]
    return out


def current():
    return {comp: {path: file_hashes(path, names) for path, names in lst} for comp, lst in ANCHORS.items()}


def drift(comp):
    """list of 'file:name' whose hash differs from the stored one (empty when aligned or unknown component)"""
    try:
        stored = json.load(open(os.path.join(HERE, "anchors.json")))
    except OSError:
        return []
    cur = {path: file_hashes(path, names) for path, names in ANCHORS.get(comp, [])}
    out = []
    for path, hs in cur.items():
        old = stored.get(comp, {}).get(path, {})
        for k in set(hs) | set(old):
            if hs.get(k) != old.get(k):
                out.append("%s:%s" % (path, k))
    return sorted(out)


if __name__ == "__main__":
    json.dump(current(), open(os.path.join(HERE, "anchors.json"), "w"), indent=1, sort_keys=True)
    print("anchors.json written")
