"""Module-level user-supplied operators (picklable) used by the checkpoint / reproducibility histories."""
import numpy as np
from pymoo.core.mutation import Mutation
from pymoode.survival.rank_and_crowding.metrics import CrowdingDiversity


class AnnealedGaussian(Mutation):
    """stateful user mutation: step size shrinks with the number of calls made so far"""

    def __init__(self, sigma=0.05, **kw):
        super().__init__(**kw)
        self.sigma = sigma
        self.calls = 0

    def _do(self, problem, X, **kwargs):
        self.calls += 1
        s = self.sigma / self.calls
        Xp = X + s * (problem.xu - problem.xl) * (np.random.random(X.shape) - 0.5)
        return np.minimum(np.maximum(Xp, problem.xl), problem.xu)


def user_repair(X, Xb, xl, xu):
    """user-supplied de_repair: clip, then pull half-way to the reference"""
    XL = xl[None, :].repeat(len(X), axis=0)
    XU = xu[None, :].repeat(len(X), axis=0)
    bad = (X < XL) | (X > XU)
    X = np.where(bad, (np.minimum(np.maximum(X, XL), XU) + Xb) / 2, X)
    return X


from pymoo.core.repair import Repair


class NoOpRepair(Repair):
    """a pymoo Repair that leaves every value as it is (e.g. a domain-specific repair with nothing to do on this problem)"""

    def _do(self, problem, X, **kwargs):
        return X


class StatefulRepair:
    """user-supplied de_repair given to the constructor as a callable *object* with state: the pull towards the reference
    vector weakens with the number of calls made so far (a checkpoint has to carry that number along)"""

    def __init__(self):
        self.calls = 0

    def __call__(self, X, Xb, xl, xu, **kwargs):
        self.calls += 1
        w = 1.0 / (1.0 + self.calls)
        XL = xl[None, :].repeat(len(X), axis=0)
        XU = xu[None, :].repeat(len(X), axis=0)
        bad = (X < XL) | (X > XU)
        C = np.minimum(np.maximum(X, XL), XU)
        return np.where(bad, (1 - w) * C + w * Xb, X)


class UserCrowding(CrowdingDiversity):
    """user crowding metric: L1 distance to the centroid (extremes infinite)"""

    def _do(self, F, n_remove=0, **kwargs):
        d = np.abs(F - F.mean(axis=0)).sum(axis=1)
        d[np.argmin(F, axis=0)] = np.inf
        d[np.argmax(F, axis=0)] = np.inf
        return d
