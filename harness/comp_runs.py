"""Components `repro` (C17: twin executions) and `resume` (C18: checkpoint after every generation).
These records have no per-record Lean counterpart: the Lean side of C17/C18 is the fold model
(PymoodeModel/Run.lean) whose step is validated by the `gen` records; here the real objects are
run along different histories and compared with each other."""
import copy
import io
import contextlib
import pickle
import numpy as np
import comp_gen
import isolate
from core import Record, bits_equal


def count_individuals(obj):
    """number of distinct pymoo Individual objects reachable from `obj` (walked by the pickle machinery)"""
    from pymoo.core.individual import Individual
    seen = set()

    class _P(pickle.Pickler):
        def persistent_id(self, o):
            if isinstance(o, Individual):
                seen.add(id(o))
            return None
    _P(io.BytesIO()).dump(obj)
    return len(seen)


def build(c):
    prob = comp_gen.make_problem(c)
    u = c.get("user_ops")
    if u == "registered-repair" and c["algo"] in ("de", "nsde", "gde3", "gde3mnn", "gde32nn", "gde3p"):
        # a repair registered under a name of the session's own in the (public) registry of dem.py, asked for by name
        import userops
        from pymoode.operators import dem as _dem
        _dem.REPAIRS["verif-session-repair"] = userops.user_repair
        c = dict(c, repair="verif-session-repair")
    if u == "repair-object" and c["algo"] in ("de", "nsde", "gde3", "gde3mnn", "gde32nn", "gde3p"):
        # the documented way: a callable handed to the constructor (here an object with state)
        import userops
        c = dict(c, repair=userops.StatefulRepair())
    with contextlib.redirect_stdout(io.StringIO()):
        algo = comp_gen.make_algorithm(c, prob)
    if u == "mutation" and hasattr(algo.mating, "genetic_mutation"):
        import userops
        algo.mating.genetic_mutation = userops.AnnealedGaussian()
    elif u == "repair" and hasattr(algo.mating, "de_mutation"):
        import userops
        algo.mating.de_mutation.de_repair = userops.user_repair
    elif u == "crowding" and hasattr(algo.survival, "crowding_func"):
        import userops
        from pymoode.survival import RankAndCrowding
        algo.survival = RankAndCrowding(crowding_func=userops.UserCrowding())
    return prob, algo


def snap(algo):
    pop = algo.pop
    n = len(pop)
    opt = algo.opt
    return {"X": np.array(pop.get("X"), dtype=float).reshape(n, -1).copy(), "F": np.array(pop.get("F"), dtype=float).reshape(n, -1).copy(),
            "optF": None if opt is None else np.array(opt.get("F"), dtype=float).reshape(len(opt), -1).copy(),
            "n_eval": int(algo.evaluator.n_eval), "n_gen": algo.n_gen}


def make_schedule(c):
    """a run-time parameter schedule (documented use of pymoo's Callback): at generation 2 the scale factor and the
    crossover rate of the DE operators are re-assigned"""
    from pymoo.core.callback import Callback

    class Schedule(Callback):
        def notify(self, algorithm):
            m = getattr(algorithm, "mating", None)
            if algorithm.n_gen == 2 and m is not None and hasattr(m, "de_mutation"):
                F = m.de_mutation.F
                m.de_mutation.F = (0.11, 0.42) if hasattr(F, "__iter__") else 0.37
                if hasattr(m, "crossover"):
                    m.crossover.CR = 0.31
    return Schedule()


def trace_asktell(c, order_seed=None, history=False, callback=None):
    """ask / evaluate / tell; with order_seed the offspring are evaluated externally, one by one, in a
    random order, by a separate evaluator"""
    from pymoo.core.evaluator import Evaluator
    from pymoo.core.population import Population
    prob, algo = build(c)
    kw = {} if callback is None else {"callback": callback}
    algo.setup(prob, termination=("n_gen", c["n_gen"]), seed=c["seed"], verbose=False, save_history=history, **kw)
    out = []
    orng = np.random.RandomState(order_seed) if order_seed is not None else None
    while algo.has_next():
        infills = algo.ask()
        if orng is None:
            algo.evaluator.eval(prob, infills)
        else:
            for i in orng.permutation(len(infills)):
                Evaluator().eval(prob, Population.create(infills[int(i)]))
        algo.tell(infills=infills)
        out.append(snap(algo))
    return out


def trace_ctor_seed(c, s):
    """the seed is given to the algorithm's constructor and the run is started without one"""
    c2 = dict(c, ctor_seed=int(s))
    if c2["algo"] not in ("de", "nsde", "gde3", "nsder"):
        c2["algo"] = "nsde" if c2["n_obj"] > 1 else "de"
    prob, algo = build(c2)
    algo.setup(prob, termination=("n_gen", c["n_gen"]), verbose=False)
    out = []
    while algo.has_next():
        algo.next()
        out.append(snap(algo))
    return out


def trace_next(c, history=False):
    prob, algo = build(c)
    algo.setup(prob, termination=("n_gen", c["n_gen"]), seed=c["seed"], verbose=False, save_history=history)
    out = []
    while algo.has_next():
        algo.next()
        out.append(snap(algo))
    return out


def trace_minimize(c, callback=None):
    from pymoo.optimize import minimize
    prob, algo = build(c)
    kw = {} if callback is None else {"callback": callback}
    res = minimize(prob, algo, ("n_gen", c["n_gen"]), seed=c["seed"], verbose=False, save_history=True, **kw)
    return [snap(h) for h in res.history], res


def trace_default_termination(c, how):
    """a run that relies on the algorithm's *own default termination* (nothing passed to setup / minimize),
    driven to its end; returns the final state only. `how`: 'asktell' drives the object itself,
    'minimize' lets pymoo copy it."""
    prob, algo = build(c)
    if how == "minimize":
        from pymoo.optimize import minimize
        res = minimize(prob, algo, seed=c["seed"], verbose=False)
        return [dict(snap(res.algorithm), final=True)]
    algo.setup(prob, seed=c["seed"], verbose=False)
    g = 0
    while algo.has_next() and g < 1500:
        algo.next()
        g += 1
    return [dict(snap(algo), final=True)]


def trace_reuse(c):
    """the same algorithm object handed to minimize() twice (pymoo deep-copies it each time): the
    second run must equal the first"""
    from pymoo.optimize import minimize
    prob, algo = build(c)
    minimize(prob, algo, ("n_gen", c["n_gen"]), seed=c["seed"] + 3, verbose=False)
    res = minimize(prob, algo, ("n_gen", c["n_gen"]), seed=c["seed"], verbose=False, save_history=True)
    return [snap(h) for h in res.history]


def first_diff(a, b):
    """index of the first generation at which two traces differ (None if equal)"""
    if len(a) != len(b):
        return min(len(a), len(b)), "traces have %d and %d generations" % (len(a), len(b))
    for g, (x, y) in enumerate(zip(a, b)):
        if x.get("final") and y.get("final") and x.get("n_gen") != y.get("n_gen"):
            return g + 1, "generation counters differ (%s vs %s)" % (x.get("n_gen"), y.get("n_gen"))
        for k in ("X", "F"):
            if x[k].shape != y[k].shape or not bits_equal(x[k], y[k]):
                return g + 1, "%s of the population differs" % k
        if (x["optF"] is None) != (y["optF"] is None) or (x["optF"] is not None and (
                x["optF"].shape != y["optF"].shape or not bits_equal(np.sort(x["optF"], axis=0), np.sort(y["optF"], axis=0)))):
            return g + 1, "reported optimum differs"
    return None


def workload(c, rng):
    """an unrelated run in the same process, built from the same shared default objects, with the same
    population size and class but other parameters, advanced without deepcopy"""
    c2 = dict(c)
    # same kind of scale factor (scalar / range) with other values: caches keyed by sizes or kinds show up
    if isinstance(c["Fcfg"], (tuple, list)):
        c2["Fcfg"] = (0.05, 0.4)
    elif c["Fcfg"] is None:
        c2["Fcfg"] = [0.9, (0.1, 0.6)][rng.randint(2)]
    else:
        c2["Fcfg"] = 0.9 if c["Fcfg"] != 0.9 else 0.35
    c2["gamma"] = c["gamma"]
    c2["CR"] = float(rng.choice([0.1, 0.6, 1.0]))
    c2["sel"] = comp_gen.SELS[rng.randint(6)]
    if 1 + 2 * (c2["y"] + (1 if "-to-" in c2["sel"] else 0)) >= c2["pop_size"]:
        c2["sel"] = "rand"
        c2["y"] = 1
    c2["repair"] = comp_gen.comp_surv_repairs()[rng.randint(4)]
    c2["n_ieq"] = 0 if c["n_ieq"] else 1
    c2["pseed"] = c["pseed"] + 13
    c2["seed"] = c["seed"] + 5
    c2["n_gen"] = 3
    c2["user_ops"] = None
    prob, algo = build(c2)
    algo.setup(prob, termination=("n_gen", 3), seed=c2["seed"], verbose=False)
    while algo.has_next():
        algo.next()


VARIANTS = ["repeat", "fresh-process", "minimize", "external-order", "next-vs-asktell", "fresh-process", "interleaved", "history",
            "default-termination", "reuse-object", "param-schedule", "ctor-seed"]


class Repro:
    NAME = "repro"

    @staticmethod
    def gen(rng, n_cases, fresh_every=6):
        base = list(comp_gen.gen(rng, n_cases, gens=(3, 5)))
        for t, c in enumerate(base):
            c = dict(c)
            c["prior"] = False
            c["special"] = None         # (non-finite objective values upset pymoo's default termination: not pymoode's business)
            c["user_ops"] = [None, None, "mutation", "repair", "repair-object"][rng.randint(5)] if not c["algo"] in ("ga", "ea-dex") else None
            v = VARIANTS[t % len(VARIANTS)]
            c["variant"] = v
            c["vseed"] = int(rng.randint(2**31 - 1))
            yield c

    @staticmethod
    def case_from_record(rec):
        return dict(rec.cfg)

    @staticmethod
    def run(c, replay=None):
        rec = Record("repro", dict(c), {})
        v = c["variant"]
        rng = np.random.RandomState(c["vseed"])
        try:
            # (the fresh-process variant must not run the case itself before the unrelated workload: that would
            # initialise every size-keyed cache with this run's own values)
            base = trace_asktell(c) if v not in ("default-termination", "fresh-process", "param-schedule", "ctor-seed") else None
            if v == "default-termination":
                # first a run driven on the object itself to the end of its default termination, then
                # the same configuration on a fresh object through minimize()
                base = trace_default_termination(c, "asktell")
                other = trace_default_termination(c, "minimize")
            elif v == "ctor-seed":
                s_ = [0, 0, 1, 12345][c["vseed"] % 4]
                base = trace_ctor_seed(c, s_)
                workload(c, rng)
                other = trace_ctor_seed(c, s_)
            elif v == "reuse-object":
                other = trace_reuse(c)
            elif v == "param-schedule":
                base = trace_asktell(c, callback=make_schedule(c))
                other, _ = trace_minimize(c, callback=make_schedule(c))
            elif v == "repeat":
                other = trace_asktell(c)
            elif v == "workload":
                workload(c, rng)
                other = trace_asktell(c)
            elif v == "minimize":
                other, _ = trace_minimize(c)
            elif v == "external-order":
                other = trace_asktell(c, order_seed=c["vseed"] % 1000)
            elif v == "next-vs-asktell":
                other = trace_next(c)
            elif v == "history":
                other = trace_asktell(c, history=True)
            elif v == "fresh-process":
                workload(c, rng)
                mine = trace_asktell(c)
                res = isolate.isolated_map([{"kind": "trace", "case": c, "F": np.zeros((1, 1))}], fallback=False)
                r = res[0]
                if r is None or r[0] != "ok":
                    raise RuntimeError("fresh-process worker: %r" % (r,))
                base, other = r[1], mine
            elif v == "interleaved":
                other = interleaved(c)
            else:
                raise ValueError(v)
            d = first_diff(base, other)
            rec.out["diff"] = None if d is None else "generation %d: %s" % d
            rec.out["n_gen"] = len(base)
            rec.out["final_X"] = base[-1]["X"] if base else None
        except Exception as e:
            import traceback
            rec.err = "%s: %s | %s" % (type(e).__name__, e, traceback.format_exc()[-500:])
        rec.tags.add("variant:" + v)
        rec.tags.add("algo:" + c["algo"])
        if c.get("user_ops"):
            rec.tags.add("user:" + c["user_ops"])
        return rec

    @staticmethod
    def encode(rec):
        raise ValueError("skipped")

    @staticmethod
    def compare(rec, ans):
        return []

    @staticmethod
    def nontrivial(rec):
        return rec.err is None

    @staticmethod
    def oracle_C17(rec):
        if rec.err is not None:
            return ["run raised: " + rec.err]
        if rec.out["diff"] is not None:
            v = rec.cfg["variant"]
            what = {"repeat": "two runs with the same seed differ",
                    "workload": "a run differs after an unrelated run in the same process",
                    "minimize": "minimize() and ask-and-tell differ",
                    "external-order": "external one-by-one evaluation in another order changes the run",
                    "next-vs-asktell": "next() and ask/evaluate/tell differ",
                    "history": "recording the history changes the run",
                    "fresh-process": "a run in a fresh process differs from the same run after other work",
                    "interleaved": "a run interleaved with another instance differs from the solo run",
                    "default-termination": "a run under the default termination differs after an earlier run in the same process",
                    "reuse-object": "the second minimize() of one algorithm object differs from a fresh run",
                    "param-schedule": "with a callback re-assigning F and CR at generation 2, minimize() and ask-and-tell differ"}[v]
            return ["%s (%s, DE/%s/%d/%s, F=%r): %s" % (what, rec.cfg["algo"], rec.cfg["sel"], rec.cfg["y"], rec.cfg["cross"],
                                                     rec.cfg["Fcfg"], rec.out["diff"])]
        return []


def interleaved(c):
    """two instances built from the same shared defaults, advanced alternately, each on its own
    generator state; returns the trace of the first"""
    c2 = dict(c, seed=c["seed"] + 11, CR=0.35, Fcfg=0.7 if c["Fcfg"] != 0.7 else 0.45)
    pa, a = build(c)
    pb, b = build(c2)
    a.setup(pa, termination=("n_gen", c["n_gen"]), seed=c["seed"], verbose=False)
    sa = np.random.get_state()
    b.setup(pb, termination=("n_gen", c["n_gen"]), seed=c2["seed"], verbose=False)
    sb = np.random.get_state()
    out = []
    while a.has_next():
        np.random.set_state(sa)
        a.next()
        sa = np.random.get_state()
        out.append(snap(a))
        if b.has_next():
            np.random.set_state(sb)
            b.next()
            sb = np.random.get_state()
    return out


Repro.ORACLES = {"C17": Repro.oracle_C17}


class Resume:
    NAME = "resume"
    METHODS = ["pickle", "deepcopy", "dill"]

    @staticmethod
    def gen(rng, n_cases):
        base = list(comp_gen.gen(rng, n_cases, gens=(3, 6)))
        for t, c in enumerate(base):
            c = dict(c)
            c["prior"] = False
            c["special"] = None
            c["user_ops"] = [None, "mutation", "repair", "crowding", "repair-object", "registered-repair"][rng.randint(6)] if c["algo"] not in ("ga", "ea-dex") else None
            c["method"] = Resume.METHODS[t % 3]
            c["history"] = bool(rng.randint(3) == 0)
            if t % 30 == 7:
                # one long run: hundreds of generations on a small population, checkpointed every 75 generations
                # (object graphs that grow with the run length)
                c["n_gen"] = 460
                # a fixed recipe under which offspring keep entering during the whole run (the long run is about the object
                # graph of the algorithm, not about configurations): 12 members, 8 variables, two conflicting objectives
                c["algo"] = ["nsde", "gde3"][(t // 30) % 2]
                c["pop_size"], c["n_var"], c["n_obj"] = 12, 8, 2
                c["xl"], c["xu"] = np.zeros(8), np.ones(8)
                c["sel"], c["y"], c["cross"], c["CR"], c["Fcfg"], c["gamma"] = "rand", 1, "bin", 0.9, (0.3, 1.0), 1e-4
                c["n_ieq"], c["surv_cls"], c["metric"], c["pm"], c["fscale"], c["shift"] = 0, "rnc", "cd", False, None, 0.0
                c["every"] = 75
                c["history"] = False
                c["n_off"] = None
                # a plain problem and plain operators (the long run is about the object graph), serialisers in turn
                c["special"] = None
                c["user_ops"] = None
                c["grid"] = None            # continuous objectives: offspring keep entering for hundreds of generations
                c["n_eq"] = 0
                c["method"] = ["deepcopy", "pickle", "dill"][(t // 30 - 1) % 3]
            yield c

    @staticmethod
    def case_from_record(rec):
        return dict(rec.cfg)

    @staticmethod
    def run(c, replay=None):
        rec = Record("resume", dict(c), {})
        try:
            if c["method"] == "dill":
                import dill
                dump, load = dill.dumps, dill.loads
            elif c["method"] == "pickle":
                dump, load = pickle.dumps, pickle.loads
            else:
                dump, load = copy.deepcopy, (lambda x: x)
            prob, algo = build(c)
            algo.setup(prob, termination=("n_gen", c["n_gen"]), seed=c["seed"], verbose=False, save_history=c["history"])
            base, saves = [], []
            every = int(c.get("every") or 1)
            while algo.has_next():
                algo.next()
                base.append(snap(algo))
                if len(base) % every == 0:
                    saves.append((len(base), dump(algo), np.random.get_state()))
            if every == 1 and not c["history"] and c["algo"] not in ("ga", "ea-dex"):
                n_ind_ = count_individuals(algo)
                if n_ind_ > 3 * int(c["pop_size"]) + 4:
                    rec.corr_breaks = ["the algorithm object holds %d Individual objects after generation %d; the state of the run "
                                       "model (population, last offspring, optimum) has at most %d" % (n_ind_, len(base), 3 * int(c["pop_size"]) + 4)]
            if every > 1:
                rec.tags.add("long-run")
                saves.append((len(base), None, None))       # sentinel (the last entry is never resumed)
            bad = []
            if c.get("user_ops") == "registered-repair":
                # between checkpoint and resume the session re-uses the name for something else
                from pymoode.operators import dem as _dem
                if "verif-session-repair" in _dem.REPAIRS:
                    _dem.REPAIRS["verif-session-repair"] = _dem.REPAIRS["to-bounds"]
            for k, blob, st in saves[:-1]:
                a2 = load(blob)
                s0 = snap(a2)
                d0 = first_diff([base[k - 1]], [s0])
                if d0 is not None:
                    bad.append("the %s copy taken after generation %d differs from the original at that time (%s)" % (c["method"], k, d0[1]))
                    continue
                np.random.set_state(st)
                rest = []
                while a2.has_next():
                    a2.next()
                    rest.append(snap(a2))
                d = first_diff(base[k:], rest)
                if d is not None:
                    bad.append("resumed from the %s checkpoint after generation %d: generation %d differs (%s)" % (
                        c["method"], k, k + d[0], d[1]))
            if every > 1:
                # does the object graph grow with the run length?  (sizes of the pickled algorithm early and late in the run)
                # If it does, some later checkpoint cannot be taken at all: search for it on a longer run of the same kind.
                try:
                    sz = Resume._probe_growth(c, dump)
                    rec.out["individuals_held"] = [sz["individuals"], sz["bound"]]
                    if sz.get("failed"):
                        bad.append(sz["failed"])
                    elif sz.get("grows"):
                        # the state of the run model (population, optimum, counters) is bounded; the real object's is not
                        rec.corr_breaks = [sz["grows"]]
                except Exception as e:
                    rec.out["individuals_held"] = "probe failed: %s" % type(e).__name__
            rec.out["bad"] = bad
            rec.out["points"] = len(saves) - 1
            if c["history"]:
                plain = trace_next(dict(c, history=False))
                d = first_diff(base, plain)
                if d is not None:
                    rec.out["bad"].append("recording the history changes the run: generation %d (%s)" % d)
        except Exception as e:
            import traceback
            rec.err = "%s: %s | %s" % (type(e).__name__, e, traceback.format_exc()[-500:])
        try:
            from pymoode.operators import dem as _dem
            _dem.REPAIRS.pop("verif-session-repair", None)
        except Exception:
            pass
        rec.tags.add("method:" + c["method"])
        rec.tags.add("algo:" + c["algo"])
        if c.get("user_ops"):
            rec.tags.add("user:" + c["user_ops"])
        if c["history"]:
            rec.tags.add("history")
        return rec

    @staticmethod
    def _probe_growth(c, dump, extra=4000, step=200):
        """The state of the run model - population, the last offspring, the optimum - holds at most 3 * pop_size individuals.
        Counts the Individual objects reachable from the real algorithm object after the last generation of a fresh run; if
        there are more, the object graph grows with the run: the run is continued for up to `extra` generations and a
        checkpoint is attempted every `step` generations - the first one that cannot be taken is a failing input of C18
        (never reached on a tree whose object graph does not grow)"""
        prob, algo = build(c)
        algo.setup(prob, termination=("n_gen", c["n_gen"] + extra), seed=c["seed"], verbose=False)
        g = 0
        while algo.has_next() and g < c["n_gen"]:
            algo.next()
            g += 1
        n_ind = count_individuals(algo)
        bound = 3 * int(c["pop_size"]) + 4
        out = {"individuals": n_ind, "bound": bound}
        if n_ind <= bound:
            return out
        while algo.has_next() and g < c["n_gen"] + extra:
            algo.next()
            g += 1
            if g % step == 0:
                try:
                    dump(algo)
                except Exception as e:
                    out["failed"] = ("no %s checkpoint can be taken after generation %d: %s (the algorithm object holds on to ever more "
                                     "individuals: %d after generation %d, the run model's state has at most %d)" % (
                                         c["method"], g, type(e).__name__, n_ind, c["n_gen"], bound))
                    return out
        out["grows"] = ("the algorithm object holds %d Individual objects after generation %d although the state of the run model - "
                        "population, last offspring, optimum - has at most %d; every %s checkpoint up to generation %d could still be "
                        "taken" % (n_ind, c["n_gen"], bound, c["method"], g))
        return out

    @staticmethod
    def encode(rec):
        raise ValueError("skipped")

    @staticmethod
    def compare(rec, ans):
        return []

    @staticmethod
    def nontrivial(rec):
        return rec.err is None and rec.out.get("points", 0) >= 2

    @staticmethod
    def oracle_C18(rec):
        if rec.err is not None:
            return ["run raised: " + rec.err]
        return ["%s (%s, user operator %s)" % (b, rec.cfg["algo"], rec.cfg.get("user_ops")) for b in rec.out["bad"][:3]]


Resume.ORACLES = {"C18": Resume.oracle_C18}
